(* RustInt.v — the values of Rust integer and boolean expressions, as the translator
   (tools/rsexpr.py) renders them: an expression of an unsigned integer type is an
   [option N], a boolean one an [option bool]; None = the evaluation panics (the
   harness builds with overflow checks on; without them the value would wrap — in
   both cases it is not the value the model computes with unbounded numbers, which
   is what the "is_source" theorems exclude). && and || evaluate their right operand
   only when needed, as in Rust. *)
From Coq Require Import List NArith Bool.
Open Scope N_scope.

Definition nneqb (a b : N) : bool := negb (a =? b).
Definition ngtb (a b : N) : bool := b <? a.
Definition ngeb (a b : N) : bool := b <=? a.

Definition radd (bits : N) (a b : option N) : option N :=
  match a, b with
  | Some x, Some y => if x + y <? 2 ^ bits then Some (x + y) else None
  | _, _ => None
  end.

Definition rsub (a b : option N) : option N :=
  match a, b with
  | Some x, Some y => if x <? y then None else Some (x - y)
  | _, _ => None
  end.

Definition rmul (bits : N) (a b : option N) : option N :=
  match a, b with
  | Some x, Some y => if x * y <? 2 ^ bits then Some (x * y) else None
  | _, _ => None
  end.

Definition rwrapping_add (bits : N) (a b : option N) : option N :=
  match a, b with Some x, Some y => Some ((x + y) mod 2 ^ bits) | _, _ => None end.

Definition rwrapping_sub (bits : N) (a b : option N) : option N :=
  match a, b with Some x, Some y => Some ((x + 2 ^ bits - y) mod 2 ^ bits) | _, _ => None end.

Definition rsaturating_sub (a b : option N) : option N :=
  match a, b with Some x, Some y => Some (x - y) | _, _ => None end.

Definition rsaturating_add (bits : N) (a b : option N) : option N :=
  match a, b with Some x, Some y => Some (N.min (x + y) (2 ^ bits - 1)) | _, _ => None end.

Definition rmax (a b : option N) : option N :=
  match a, b with Some x, Some y => Some (N.max x y) | _, _ => None end.

Definition rmin (a b : option N) : option N :=
  match a, b with Some x, Some y => Some (N.min x y) | _, _ => None end.

(* `e as uN` to a narrower type truncates *)
Definition rcast (bits : N) (a : option N) : option N :=
  match a with Some x => Some (x mod 2 ^ bits) | None => None end.

Definition rcmp (f : N -> N -> bool) (a b : option N) : option bool :=
  match a, b with Some x, Some y => Some (f x y) | _, _ => None end.

Definition rand (a b : option bool) : option bool :=
  match a with Some true => b | Some false => Some false | None => None end.

Definition ror (a b : option bool) : option bool :=
  match a with Some true => Some true | Some false => b | None => None end.

Definition rnot (a : option bool) : option bool :=
  match a with Some x => Some (negb x) | None => None end.

(* `if c { return r; }` followed by the rest of the function *)
Definition rguard {A} (c : option bool) (r rest : option A) : option A :=
  match c with Some true => r | Some false => rest | None => None end.

(* `if c { a } else { b }` *)
Definition rif {A} (c : option bool) (a b : option A) : option A :=
  match c with Some true => a | Some false => b | None => None end.

(* a sequence of big-endian fields of the given widths (bytes), as Buf::get_uN reads
   them and BufMut::put_uN writes them: field id, width *)
Definition layout := list (N * N).
Definition layout_len (l : layout) : N := fold_right (fun f acc => snd f + acc) 0 l.

(* what a body parser reads from the buffer, in the order it does: `get_uN()` (N/8 bytes,
   big-endian), `split_to(key_length)`, `split_to(get_value_len())` *)
Inductive bread := RdU (w : nat) | RdKey | RdValue.

(* what the encoder writes behind the header: `put_uN(x)` (big-endian, N/8 bytes),
   `put(bytes)` / `put_slice(bytes)` *)
Inductive bwrite := WrU (w : nat) | WrBytes.

(* the statements of Decoder::decode: parse the header when none is pending (waiting for
   24 bytes first); answer an announced body above the item size limit at once; wait for
   the whole body; hand over to parse_request *)
Inductive dstep := StHeader | StTooLarge | StNeedMore | StParse.

(* `let x = e;` evaluated where it stands *)
Definition rbind {A B} (a : option A) (f : A -> option B) : option B :=
  match a with Some x => f x | None => None end.
