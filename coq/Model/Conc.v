(* Conc.v — the store's operations as programs over the atomic calls they make on
   the map (each DashMap single-key call is atomic under its shard lock) and on
   the CAS counter; threads interleave between calls. The clock is constant in
   the concurrent window ([now]). *)
From MC Require Import Model.Base Model.Generated Model.Store Model.Memc.

Section Conc.
Variable now : N.

Inductive action :=
| AGet (k : bytes)                       (* memory.get(key) -> clone *)
| ARemExp (k : bytes)                    (* memory.remove_if(key, |stored| stored is expired) *)
| AFetchCas                              (* cas_id.fetch_add(1) *)
| AInsert (k : bytes) (r : record)       (* memory.insert(key, record) *)
| AEntry (k : bytes) (r : record)        (* memory.entry(key): compare CAS and store *)
| ARemIf (k : bytes) (c : N).            (* memory.remove_if(key, |stored| cas == 0 || matches) *)

Inductive aresult :=
| XRec (o : option record)
| XUnit
| XNat (n : N)
| XSet (r : result N)
| XDel (r : result record).

Record shared := mkShared { sh_mem : mem; sh_cas : N }.

Definition act (a : action) (s : shared) : shared * aresult :=
  match a with
  | AGet k => (s, XRec (lookup k (sh_mem s)))
  | ARemExp k =>
      match lookup k (sh_mem s) with
      | Some r => if expired now r then (mkShared (remove k (sh_mem s)) (sh_cas s), XUnit) else (s, XUnit)
      | None => (s, XUnit)
      end
  | AFetchCas => (mkShared (sh_mem s) (add64w (sh_cas s) 1), XNat (sh_cas s))
  | AInsert k r => (mkShared (insert k r (sh_mem s)) (sh_cas s), XUnit)
  | AEntry k r =>
      match lookup k (sh_mem s) with
      | Some old =>
          if r_cas old =? r_cas r
          then (mkShared (insert k (mkRec now (sh_cas s) (r_flags r) (r_ttl r) (r_val r)) (sh_mem s))
                         (add64w (sh_cas s) 1), XSet (ROk (sh_cas s)))
          else (s, XSet (RErr KeyExists))
      | None =>
          let c := next_client_cas (r_cas r) in
          (mkShared (insert k (mkRec now c (r_flags r) (r_ttl r) (r_val r)) (sh_mem s)) (sh_cas s),
           XSet (ROk c))
      end
  | ARemIf k c =>
      match lookup k (sh_mem s) with
      | Some r =>
          if (c =? 0) || (r_cas r =? c)
          then (mkShared (remove k (sh_mem s)) (sh_cas s), XDel (ROk r))
          else (s, XDel (RErr KeyExists))
      | None => (s, XDel (RErr NotFound))
      end
  end.

(* results of the store's operations *)
Inductive opres :=
| OGetR (r : result record)
| OSetR (r : result N)
| ODelR (r : result record).

Inductive prog :=
| Ret (v : opres)
| Act (a : action) (k : aresult -> prog).

(* Cache::get on MemoryStore: get_by_key, then check_if_expired *)
Definition get_prog (k : bytes) : prog :=
  Act (AGet k) (fun x =>
    match x with
    | XRec (Some r) =>
        if expired now r
        then Act (ARemExp k) (fun _ => Ret (OGetR (RErr NotFound)))
        else Ret (OGetR (ROk r))
    | _ => Ret (OGetR (RErr NotFound))
    end).

(* MemoryStore::set *)
Definition set_prog (k : bytes) (r : record) : prog :=
  if 0 <? r_cas r then
    Act (AEntry k r) (fun x =>
      match x with XSet res => Ret (OSetR res) | _ => Ret (OSetR (RErr KeyExists)) end)
  else
    Act AFetchCas (fun x =>
      match x with
      | XNat c => Act (AInsert k (mkRec now c (r_flags r) (r_ttl r) (r_val r))) (fun _ => Ret (OSetR (ROk c)))
      | _ => Ret (OSetR (RErr KeyExists))
      end).

(* MemoryStore::delete *)
Definition del_prog (k : bytes) (c : N) : prog :=
  Act (ARemIf k c) (fun x =>
    match x with XDel res => Ret (ODelR res) | _ => Ret (ODelR (RErr NotFound)) end).

(* run a program without interleaving *)
Fixpoint run_atomic (p : prog) (s : shared) : shared * opres :=
  match p with
  | Ret v => (s, v)
  | Act a k => let (s1, x) := act a s in run_atomic (k x) s1
  end.

(* ---- the client operations ---- *)
Inductive op :=
| OpGet (k : bytes)
| OpSet (k : bytes) (r : record)
| OpDel (k : bytes) (c : N).

Definition prog_of (o : op) : prog :=
  match o with
  | OpGet k => get_prog k
  | OpSet k r => set_prog k r
  | OpDel k c => del_prog k c
  end.

(* ---- the memcache commands: a retrieval followed by a store ---- *)
Fixpoint pbind (p : prog) (f : opres -> prog) : prog :=
  match p with
  | Ret v => f v
  | Act a k => Act a (fun x => pbind (k x) f)
  end.

Inductive mop :=
| MBase (o : op)
| MAdd (k : bytes) (r : record)
| MReplace (k : bytes) (r : record)
| MAppend (k : bytes) (cas : N) (v : bytes)
| MPrepend (k : bytes) (cas : N) (v : bytes)
| MDelta (incr : bool) (k : bytes) (hcas hexp delta initial : N).

(* results of incr/decr are reported as (cas, value) through OSetR's number:
   the value is recoverable from the stored text; the programs return the
   store's answer *)
Definition mprog_of (m : mop) : prog :=
  match m with
  | MBase o => prog_of o
  | MAdd k r =>
      pbind (get_prog k) (fun g =>
        match g with OGetR (ROk _) => Ret (OSetR (RErr KeyExists)) | _ => set_prog k r end)
  | MReplace k r =>
      pbind (get_prog k) (fun g =>
        match g with OGetR (ROk _) => set_prog k r | _ => Ret (OSetR (RErr NotFound)) end)
  | MAppend k cas v =>
      pbind (get_prog k) (fun g =>
        match g with
        | OGetR (ROk old) => set_prog k (mkRec (r_ts old) cas (r_flags old) (r_ttl old) (r_val old ++ v))
        | _ => Ret (OSetR (RErr NotFound))
        end)
  | MPrepend k cas v =>
      pbind (get_prog k) (fun g =>
        match g with
        | OGetR (ROk old) => set_prog k (mkRec (r_ts old) cas (r_flags old) (r_ttl old) (v ++ r_val old))
        | _ => Ret (OSetR (RErr NotFound))
        end)
  | MDelta incr k hcas hexp delta initial =>
      pbind (get_prog k) (fun g =>
        match g with
        | OGetR (ROk old) =>
            match parse_u64 (r_val old) with
            | None => Ret (OSetR (RErr ArithOnNonNumeric))
            | Some v =>
                let v' := if incr then wrapping_add64 v delta else if v <? delta then 0 else v - delta in
                set_prog k (mkRec 0 hcas (r_flags old) hexp (to_dec v'))
            end
        | _ =>
            if hexp =? u32_max then Ret (OSetR (RErr NotFound))
            else set_prog k (mkRec 0 0 0 hexp (to_dec initial))
        end)
  end.

(* ---- interleaving ---- *)
Section Threads.
Context {Op : Type}.
Variable pof : Op -> prog.

(* a thread: the program of the operation in flight (if any), the operations
   still to issue, the results obtained so far *)
Record thread := mkThread {
  th_cur : option (Op * prog);
  th_todo : list Op;
  th_done : list opres
}.

Definition new_thread (ops : list Op) : thread := mkThread None ops [].

(* one scheduling step of a thread: start the next operation, perform the next
   atomic action, or finish *)
Definition thread_step (t : thread) (s : shared) : thread * shared :=
  match th_cur t with
  | None =>
      match th_todo t with
      | [] => (t, s)
      | o :: rest => (mkThread (Some (o, pof o)) rest (th_done t), s)
      end
  | Some (_, Ret v) => (mkThread None (th_todo t) (th_done t ++ [v]), s)
  | Some (o, Act a k) =>
      let (s1, x) := act a s in (mkThread (Some (o, k x)) (th_todo t) (th_done t), s1)
  end.

Fixpoint nth_thread (i : nat) (ts : list thread) : option thread :=
  match ts, i with
  | [], _ => None
  | t :: _, O => Some t
  | _ :: r, S j => nth_thread j r
  end.

Fixpoint set_thread (i : nat) (t : thread) (ts : list thread) : list thread :=
  match ts, i with
  | [], _ => []
  | _ :: r, O => t :: r
  | x :: r, S j => x :: set_thread j t r
  end.

(* a schedule is the list of thread indices that take the successive steps *)
Fixpoint run_sched (sched : list nat) (ts : list thread) (s : shared) : list thread * shared :=
  match sched with
  | [] => (ts, s)
  | i :: rest =>
      match nth_thread i ts with
      | None => run_sched rest ts s
      | Some t =>
          let (t', s') := thread_step t s in
          run_sched rest (set_thread i t' ts) s'
      end
  end.

End Threads.

End Conc.
