(* PolConc.v — the store behind the random eviction policy under concurrency:
   memcache/random_policy.rs (RandomPolicy) over memory_store/store.rs
   (MemoryStore), each Cache operation as a program over the atomic calls it
   makes — the single-key DashMap calls, the whole-map calls, the CAS counter and
   the policy's AtomicU64 usage counter — interleaved by a schedule.

   What the random generator and the (non-atomic) iteration of the map decide is
   taken from an oracle: every scan of the map pops the list of keys its
   predicate accepted. Theorems quantify over all oracles; the correspondence
   feeds the keys the implementation's scans actually accepted.

   The usage counter is a mathematical integer here; Proofs/PPolConc.v shows it
   never runs below zero (fetch_sub never wraps); staying below 2^64 is the
   trusted-base assumption "stored bytes far below 2^64". *)
From Coq Require Import ZArith.
From MC Require Import Model.Base Model.Generated Model.Store.

(* ---- a generic interleaving machine ------------------------------------- *)
Section Machine.
Context {St Act Res Val Op : Type}.
Variable act : Act -> St -> St * Res.

Inductive gprog :=
| GRet (v : Val)
| GAct (a : Act) (k : Res -> gprog).

Fixpoint gbind (p : gprog) (f : Val -> gprog) : gprog :=
  match p with
  | GRet v => f v
  | GAct a k => GAct a (fun x => gbind (k x) f)
  end.

Fixpoint grun (p : gprog) (s : St) : St * Val :=
  match p with
  | GRet v => (s, v)
  | GAct a k => let (s1, x) := act a s in grun (k x) s1
  end.

Variable pof : Op -> gprog.

(* a client decides its next operation from the answers it has had so far *)
Record gthread := mkG {
  g_cur : option (Op * gprog);
  g_client : list Val -> option Op;
  g_done : list Val
}.

Definition list_client (ops : list Op) : list Val -> option Op :=
  fun done => nth_error ops (length done).

Definition new_gthread (c : list Val -> option Op) : gthread := mkG None c [].

Definition gthread_step (t : gthread) (s : St) : gthread * St :=
  match g_cur t with
  | None =>
      match g_client t (g_done t) with
      | None => (t, s)
      | Some o => (mkG (Some (o, pof o)) (g_client t) (g_done t), s)
      end
  | Some (_, GRet v) => (mkG None (g_client t) (g_done t ++ [v]), s)
  | Some (o, GAct a k) =>
      let (s1, x) := act a s in (mkG (Some (o, k x)) (g_client t) (g_done t), s1)
  end.

Fixpoint gnth (i : nat) (ts : list gthread) : option gthread :=
  match ts, i with
  | [], _ => None
  | t :: _, O => Some t
  | _ :: r, S j => gnth j r
  end.

Fixpoint gset (i : nat) (t : gthread) (ts : list gthread) : list gthread :=
  match ts, i with
  | [], _ => []
  | _ :: r, O => t :: r
  | x :: r, S j => x :: gset j t r
  end.

Fixpoint grun_sched (sched : list nat) (ts : list gthread) (s : St) : list gthread * St :=
  match sched with
  | [] => (ts, s)
  | i :: rest =>
      match gnth i ts with
      | None => grun_sched rest ts s
      | Some t =>
          let (t', s') := gthread_step t s in
          grun_sched rest (gset i t' ts) s'
      end
  end.

End Machine.

Arguments gprog : clear implicits.
Arguments gthread : clear implicits.

(* ---- the policy store ----------------------------------------------------- *)
Section PolConc.
Variable now : N.        (* the clock is constant in the concurrent window *)
Variable limit : Z.      (* RandomPolicy::memory_limit *)

Record pshared := mkP {
  p_mem : mem;
  p_cas : N;               (* MemoryStore::cas_id *)
  p_usage : Z;             (* RandomPolicy::memory_usage *)
  p_oracle : list (list bytes)  (* keys accepted by the successive scans of the map *)
}.

Inductive paction :=
| PGet (k : bytes)                  (* memory.get(key) -> clone *)
| PRemExp (k : bytes)               (* memory.remove_if(key, |stored| stored is expired) -> what was dropped *)
| PFetchCas                         (* cas_id.fetch_add(1) *)
| PInsert (k : bytes) (r : record)  (* memory.insert(key, record) -> the record replaced *)
| PEntry (k : bytes) (r : record)   (* memory.entry(key): compare CAS and store -> result, size replaced *)
| PRemIf (k : bytes) (c : N)        (* memory.remove_if(key, |stored| cas == 0 || matches) *)
| PRemove (k : bytes)               (* memory.remove(key) *)
| PLen                              (* memory.len() *)
| PScan                             (* memory.iter().filter(f): the keys f accepted *)
| PAlter (delay : N)                (* memory.alter_all(re-date) *)
| PUsageLoad                        (* memory_usage.load() *)
| PUsageAdd (n : N)                 (* memory_usage.fetch_add(n) *)
| PUsageSub (n : N).                (* memory_usage.fetch_sub(n) *)

Inductive presult :=
| QRec (o : option record)
| QUnit
| QNat (n : N)
| QInt (z : Z)
| QSet (r : result N) (replaced : N)
| QDel (r : result record)
| QKeys (ks : list bytes).

Definition with_pmem (s : pshared) (m : mem) : pshared := mkP m (p_cas s) (p_usage s) (p_oracle s).
Definition with_pusage (s : pshared) (u : Z) : pshared := mkP (p_mem s) (p_cas s) u (p_oracle s).

Definition pact (a : paction) (s : pshared) : pshared * presult :=
  match a with
  | PGet k => (s, QRec (lookup k (p_mem s)))
  | PRemExp k =>
      match lookup k (p_mem s) with
      | Some r => if expired now r then (with_pmem s (remove k (p_mem s)), QRec (Some r)) else (s, QRec None)
      | None => (s, QRec None)
      end
  | PFetchCas => (mkP (p_mem s) (add64w (p_cas s) 1) (p_usage s) (p_oracle s), QNat (p_cas s))
  | PInsert k r => (with_pmem s (insert k r (p_mem s)), QRec (lookup k (p_mem s)))
  | PEntry k r =>
      match lookup k (p_mem s) with
      | Some old =>
          if r_cas old =? r_cas r
          then (mkP (insert k (mkRec now (p_cas s) (r_flags r) (r_ttl r) (r_val r)) (p_mem s))
                    (add64w (p_cas s) 1) (p_usage s) (p_oracle s),
                QSet (ROk (p_cas s)) (rec_len old))
          else (s, QSet (RErr KeyExists) 0)
      | None =>
          let c := next_client_cas (r_cas r) in
          (with_pmem s (insert k (mkRec now c (r_flags r) (r_ttl r) (r_val r)) (p_mem s)), QSet (ROk c) 0)
      end
  | PRemIf k c =>
      match lookup k (p_mem s) with
      | Some r =>
          if (c =? 0) || (r_cas r =? c)
          then (with_pmem s (remove k (p_mem s)), QDel (ROk r))
          else (s, QDel (RErr KeyExists))
      | None => (s, QDel (RErr NotFound))
      end
  | PRemove k => (with_pmem s (remove k (p_mem s)), QRec (lookup k (p_mem s)))
  | PLen => (s, QNat (N.of_nat (length (p_mem s))))
  | PScan =>
      match p_oracle s with
      | ks :: rest => (mkP (p_mem s) (p_cas s) (p_usage s) rest, QKeys ks)
      | [] => (s, QKeys [])
      end
  | PAlter delay =>
      (with_pmem s (map (fun kr => (fst kr, flush_record now delay (snd kr))) (p_mem s)), QUnit)
  | PUsageLoad => (s, QInt (p_usage s))
  | PUsageAdd n => (with_pusage s (p_usage s + Z.of_N n)%Z, QUnit)
  | PUsageSub n => (with_pusage s (p_usage s - Z.of_N n)%Z, QUnit)
  end.

(* answers of the Cache operations *)
Inductive pores :=
| PGetR (r : result record)
| PSetR (r : result N)
| PDelR (r : result record)
| PFlushR
| PFuel.     (* the eviction loop ran out of the model's fuel: the store is abandoned *)

Notation prog := (gprog paction presult pores).

(* ---- RandomPolicy::remove_if = MemoryStore::remove_if, then un-account each
        record removed: scan, remove the accepted keys one by one, subtract *)
Fixpoint subs (ls : list N) (k : prog) : prog :=
  match ls with
  | [] => k
  | n :: r => GAct (PUsageSub n) (fun _ => subs r k)
  end.

Fixpoint removes (ks : list bytes) (acc : list N) (k : list N -> prog) : prog :=
  match ks with
  | [] => k (rev acc)
  | x :: r =>
      GAct (PRemove x) (fun res =>
        match res with
        | QRec (Some rc) => removes r (rec_len rc :: acc) k
        | _ => removes r acc k
        end)
  end.

Definition remove_if_prog (k : prog) : prog :=
  GAct PScan (fun res =>
    match res with
    | QKeys ks => removes ks [] (fun ls => subs ls k)
    | _ => k
    end).

(* RandomPolicy::evict_while_over_limit; [k true]: the loop was left because the
   usage is within the limit or the store is empty; [k false]: out of fuel *)
Fixpoint evict_prog (fuel : nat) (k : bool -> prog) : prog :=
  match fuel with
  | O => k false
  | S f =>
      GAct PUsageLoad (fun res =>
        match res with
        | QInt u =>
            if (limit <? u)%Z then
              GAct PLen (fun res2 =>
                match res2 with
                | QNat n => if n =? 0 then k true else remove_if_prog (evict_prog f k)
                | _ => k false
                end)
            else k true
        | _ => k false
        end)
  end.

(* MemoryStore::set, reporting the size of the record replaced *)
Definition inner_set_prog (k : bytes) (r : record) (cont : result N -> N -> prog) : prog :=
  if 0 <? r_cas r then
    GAct (PEntry k r) (fun x =>
      match x with QSet res rep => cont res rep | _ => cont (RErr KeyExists) 0 end)
  else
    GAct PFetchCas (fun x =>
      match x with
      | QNat c =>
          GAct (PInsert k (mkRec now c (r_flags r) (r_ttl r) (r_val r))) (fun old =>
            match old with
            | QRec (Some o) => cont (ROk c) (rec_len o)
            | _ => cont (ROk c) 0
            end)
      | _ => cont (RErr KeyExists) 0
      end).

Definition EVICT_FUEL : nat := 4096.

(* RandomPolicy::set *)
Definition pset_prog (k : bytes) (r : record) : prog :=
  evict_prog EVICT_FUEL (fun ok =>
    if ok then
      GAct (PUsageAdd (rec_len r)) (fun _ =>
        inner_set_prog k r (fun res rep =>
          match res with
          | ROk c => GAct (PUsageSub rep) (fun _ => GRet (PSetR (ROk c)))
          | RErr e => GAct (PUsageSub (rec_len r)) (fun _ => GRet (PSetR (RErr e)))
          end))
    else GRet PFuel).

(* RandomPolicy::get: get_by_key, then check_if_expired (which un-accounts what
   the store dropped, possibly nothing) *)
Definition pget_prog (k : bytes) : prog :=
  GAct (PGet k) (fun x =>
    match x with
    | QRec (Some r) =>
        if expired now r then
          GAct (PRemExp k) (fun d =>
            let n := match d with QRec (Some rc) => rec_len rc | _ => 0 end in
            GAct (PUsageSub n) (fun _ => GRet (PGetR (RErr NotFound))))
        else GRet (PGetR (ROk r))
    | _ => GRet (PGetR (RErr NotFound))
    end).

(* RandomPolicy::delete *)
Definition pdel_prog (k : bytes) (c : N) : prog :=
  GAct (PRemIf k c) (fun x =>
    match x with
    | QDel (ROk r) => GAct (PUsageSub (rec_len r)) (fun _ => GRet (PDelR (ROk r)))
    | QDel (RErr e) => GRet (PDelR (RErr e))
    | _ => GRet (PDelR (RErr NotFound))
    end).

(* RandomPolicy::flush *)
Definition pflush_prog (delay : N) : prog :=
  if 0 <? delay then GAct (PAlter delay) (fun _ => GRet PFlushR)
  else remove_if_prog (GRet PFlushR).

Inductive pop :=
| PoGet (k : bytes)
| PoSet (k : bytes) (r : record)
| PoDel (k : bytes) (c : N)
| PoFlush (delay : N).

Definition pprog_of (o : pop) : prog :=
  match o with
  | PoGet k => pget_prog k
  | PoSet k r => pset_prog k r
  | PoDel k c => pdel_prog k c
  | PoFlush d => pflush_prog d
  end.

Definition pthread := gthread paction presult pores pop.

Definition prun_sched := grun_sched pact pprog_of.

(* the records of the stores in progress: what each client currently inside a
   set is about to write *)
Definition in_flight (t : pthread) : Z :=
  match g_cur t with
  | Some (PoSet _ r, _) => Z.of_N (rec_len r)
  | _ => 0%Z
  end.

Definition in_flight_sum (ts : list pthread) : Z := fold_right (fun t acc => (in_flight t + acc)%Z) 0%Z ts.

Definition idle (t : pthread) : Prop := g_cur t = None.

End PolConc.
