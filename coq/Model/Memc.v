(* Memc.v — memcache/store.rs (MemcStore): the memcache commands, each built as
   a get followed by a set on the Cache. *)
From MC Require Import Model.Base Model.Generated Model.Store.

Definition memc_add (k : bytes) (r : record) (s : store) : store * result N :=
  let (s1, g) := get k s in
  match g with
  | ROk _ => (s1, RErr KeyExists)
  | RErr _ => set k r s1
  end.

Definition memc_replace (k : bytes) (r : record) (s : store) : store * result N :=
  let (s1, g) := get k s in
  match g with
  | ROk _ => set k r s1
  | RErr _ => (s1, RErr NotFound)
  end.

(* append: stored header kept except cas := request cas; value old ++ new *)
Definition memc_append (k : bytes) (cas : N) (v : bytes) (s : store) : store * result N :=
  let (s1, g) := get k s in
  match g with
  | ROk old => set k (mkRec (r_ts old) cas (r_flags old) (r_ttl old) (r_val old ++ v)) s1
  | RErr _ => (s1, RErr NotFound)
  end.

Definition memc_prepend (k : bytes) (cas : N) (v : bytes) (s : store) : store * result N :=
  let (s1, g) := get k s in
  match g with
  | ROk old => set k (mkRec (r_ts old) cas (r_flags old) (r_ttl old) (v ++ r_val old)) s1
  | RErr _ => (s1, RErr NotFound)
  end.

(* add_delta: header = Meta::new(request cas, request opaque, expiration);
   result is (cas, value) *)
Definition memc_delta (incr : bool) (k : bytes) (hcas hexp : N) (delta initial : N) (s : store)
  : store * result (N * N) :=
  let (s1, g) := get k s in
  match g with
  | ROk old =>
      match parse_u64 (r_val old) with
      | None => (s1, RErr ArithOnNonNumeric)
      | Some v =>
          let v' := if incr then wrapping_add64 v delta
                    else if v <? delta then 0 else v - delta in
          let (s2, r) := set k (mkRec 0 hcas (r_flags old) hexp (to_dec v')) s1 in
          match r with
          | ROk c => (s2, ROk (c, v'))
          | RErr e => (s2, RErr e)
          end
      end
  | RErr _ =>
      if hexp =? u32_max then (s1, RErr NotFound)
      else
        let (s2, r) := set k (mkRec 0 0 0 hexp (to_dec initial)) s1 in
        match r with
        | ROk c => (s2, ROk (c, initial))
        | RErr e => (s2, RErr e)
        end
  end.
