(* Run.v — the entry points the runners call: a world of connections sharing one
   store, driven by a list of events (the same events the harness applied to
   the implementation). *)
From MC Require Import Model.Base Model.Generated Model.Store Model.Memc Model.Codec
  Model.Handler Model.Conn.

Inductive event :=
| EvChunk (c : nat) (b : bytes)     (* a read on connection c returned these bytes *)
| EvEof (c : nat)                   (* a read on connection c returned 0 *)
| EvReset (c : nat)                 (* a read on connection c failed (connection reset) *)
| EvTimeout (c : nat)               (* connection c was idle for the receive timeout *)
| EvTick (d : N)                    (* the clock advanced by d seconds *)
| EvOracle (vs : list bytes).       (* victims the eviction loop will pick next *)

Record world := mkWorld {
  w_limit : N;                      (* item size limit of every connection's codec *)
  w_conns : list conn;
  w_store : store
}.

Definition init_world (item_limit : N) (mem_limit : option N) : world :=
  mkWorld item_limit [] (init_store mem_limit).

(* a world whose store has already issued CAS values below [cas0] and whose
   clock shows [now0] (a server that has been running) *)
Definition init_world_at (item_limit : N) (mem_limit : option N) (cas0 now0 : N) : world :=
  mkWorld item_limit [] (mkStore [] cas0 now0 mem_limit 0 []).

(* connection i; one that has not been seen yet is a fresh connection *)
Fixpoint get_conn (limit : N) (i : nat) (l : list conn) : conn :=
  match l, i with
  | [], _ => new_conn limit
  | c :: _, O => c
  | _ :: t, S i' => get_conn limit i' t
  end.

Fixpoint set_conn (limit : N) (i : nat) (c : conn) (l : list conn) : list conn :=
  match i, l with
  | O, [] => [c]
  | O, _ :: t => c :: t
  | S i', [] => new_conn limit :: set_conn limit i' c []
  | S i', x :: t => x :: set_conn limit i' c t
  end.

Definition step (w : world) (e : event) : world * list bytes :=
  match e with
  | EvChunk i b =>
      match feed b (get_conn (w_limit w) i (w_conns w)) (w_store w) with
      | (cn, s, out) => (mkWorld (w_limit w) (set_conn (w_limit w) i cn (w_conns w)) s, out)
      end
  | EvEof i =>
      match eof (get_conn (w_limit w) i (w_conns w)) (w_store w) with
      | (cn, s, out) => (mkWorld (w_limit w) (set_conn (w_limit w) i cn (w_conns w)) s, out)
      end
  | EvReset i =>
      let cn := get_conn (w_limit w) i (w_conns w) in
      (mkWorld (w_limit w) (set_conn (w_limit w) i (if is_open cn then close cn WReset else cn) (w_conns w))
               (w_store w), [])
  | EvTimeout i =>
      let cn := get_conn (w_limit w) i (w_conns w) in
      (mkWorld (w_limit w) (set_conn (w_limit w) i (if is_open cn then close cn WTimeout else cn) (w_conns w))
               (w_store w), [])
  | EvTick d => (mkWorld (w_limit w) (w_conns w) (with_now (w_store w) (s_now (w_store w) + d)), [])
  | EvOracle vs => (mkWorld (w_limit w) (w_conns w) (with_oracle (w_store w) vs), [])
  end.

(* all outputs, event by event *)
Fixpoint run (w : world) (es : list event) : world * list (list bytes) :=
  match es with
  | [] => (w, [])
  | e :: t =>
      let (w1, out) := step w e in
      let (w2, outs) := run w1 t in
      (w2, out :: outs)
  end.

(* what the runners print about a connection *)
Definition status_code (cn : conn) : N :=
  match cn_status cn with
  | COpen => 0
  | CClosed WQuit => 1
  | CClosed WQuitQ => 2
  | CClosed (WError EInvalidData) => 3
  | CClosed (WError EOther) => 4
  | CClosed WPanic => 5
  | CClosed WEof => 6
  | CClosed WReset => 7
  | CClosed WTimeout => 8
  end.
