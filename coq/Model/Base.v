(* Base.v — bytes, big-endian numbers, Rust integer ranges, outcomes.
   Model of memc-rs: everything here is executable (no proofs in Model/). *)
From Coq Require Export List NArith Bool Lia.
From Coq Require Export Init.Byte.
From Coq Require Import Strings.Byte.
Export ListNotations.
Open Scope N_scope.

Arguments N.add : simpl never.
Arguments N.sub : simpl never.
Arguments N.mul : simpl never.
Arguments N.eqb : simpl never.
Arguments N.ltb : simpl never.
Arguments N.leb : simpl never.
Arguments N.modulo : simpl never.
Arguments N.div : simpl never.
Arguments N.pow : simpl never.

Definition bytes := list byte.

Definition two16 : N := 65536.
Definition two32 : N := 4294967296.
Definition two64 : N := 18446744073709551616.
Definition u64_max : N := 18446744073709551615.
Definition u32_max : N := 4294967295.

Definition b2n (b : byte) : N := Byte.to_N b.

(* [n2b n] is the byte [n mod 256] *)
Definition n2b (n : N) : byte :=
  match Byte.of_N (n mod 256) with Some b => b | None => x00 end.

Definition blen (l : bytes) : N := N.of_nat (length l).

(* big-endian value of a byte string *)
Fixpoint be_acc (acc : N) (l : bytes) : N :=
  match l with
  | [] => acc
  | b :: t => be_acc (acc * 256 + b2n b) t
  end.
Definition be_dec (l : bytes) : N := be_acc 0 l.

(* [k] big-endian bytes of [n mod 256^k] *)
Fixpoint be_enc (k : nat) (n : N) : bytes :=
  match k with
  | O => []
  | S k' => n2b (n / (256 ^ N.of_nat k')) :: be_enc k' n
  end.

Definition be16 := be_enc 2.
Definition be32 := be_enc 4.
Definition be64 := be_enc 8.

(* key equality *)
Fixpoint bytes_eqb (a b : bytes) : bool :=
  match a, b with
  | [], [] => true
  | x :: a', y :: b' => Byte.eqb x y && bytes_eqb a' b'
  | _, _ => false
  end.

(* [take n l] : first n elements and the rest, None when l is shorter
   (BytesMut::split_to / Buf::get_* panic in that case) *)
Fixpoint take (n : nat) (l : bytes) : option (bytes * bytes) :=
  match n with
  | O => Some ([], l)
  | S n' =>
      match l with
      | [] => None
      | b :: t =>
          match take n' t with
          | Some (h, r) => Some (b :: h, r)
          | None => None
          end
      end
  end.

(* Rust outcomes: a value, or a panic (arithmetic overflow in a checked build,
   read past the end of a buffer, explicit panic!) *)
Inductive res (A : Type) : Type :=
| Ok (a : A)
| Panic.
Arguments Ok {A} a.
Arguments Panic {A}.

Definition bind {A B} (r : res A) (f : A -> res B) : res B :=
  match r with Ok a => f a | Panic => Panic end.

(* checked u64 / u32 addition (overflow-checks build) *)
Definition add64 (a b : N) : res N := if a + b <? two64 then Ok (a + b) else Panic.
Definition add32 (a b : N) : res N := if a + b <? two32 then Ok (a + b) else Panic.
Definition wrapping_add64 (a b : N) : N := (a + b) mod two64.
Definition saturating_add64 (a b : N) : N := if a + b <? two64 then a + b else u64_max.
(* cas.wrapping_add(1).max(1): the CAS a conditional store gives an absent key *)
Definition next_client_cas (c : N) : N := N.max ((c + 1) mod two64) 1.

(* ASCII decimal rendering of a number (u64::to_string) *)
Definition digit (d : N) : byte := n2b (48 + d).

Fixpoint dec_digits (fuel : nat) (n : N) (acc : bytes) : bytes :=
  match fuel with
  | O => acc
  | S f =>
      let acc' := digit (n mod 10) :: acc in
      if n / 10 =? 0 then acc' else dec_digits f (n / 10) acc'
  end.
(* 20 digits suffice below 2^64; larger inputs never occur (values are u64) *)
Definition to_dec (n : N) : bytes := dec_digits 40 n [].

(* str::parse::<u64> on the bytes (after from_utf8): optional '+', then one or
   more ASCII digits, value below 2^64 *)
Definition digit_val (b : byte) : option N :=
  let n := b2n b in
  if (48 <=? n) && (n <=? 57) then Some (n - 48) else None.

Fixpoint parse_digits (acc : N) (l : bytes) : option N :=
  match l with
  | [] => Some acc
  | b :: t =>
      match digit_val b with
      | Some d =>
          let acc' := acc * 10 + d in
          if acc' <? two64 then parse_digits acc' t else None
      | None => None
      end
  end.

Definition parse_u64 (l : bytes) : option N :=
  match l with
  | [] => None
  | b :: t =>
      if Byte.eqb b x2b then
        match t with [] => None | _ => parse_digits 0 t end
      else parse_digits 0 l
  end.
