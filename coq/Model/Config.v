(* Config.v — memcache/cli/parser.rs (MemcrsArgs), memcache/builder.rs and
   memcache_server/runtime_builder.rs: what a parsed command line makes of the
   server. clap / byte-unit parsing itself is not modelled (the model starts from
   the parsed values). *)
From MC Require Import Model.Base Model.Store Model.Conn Model.Run Model.Server.

Inductive runtime_type := CurrentThread | MultiThread.
Inductive eviction_policy := PolicyNone | PolicyRandom.

Record args := mkArgs {
  a_port : N;
  a_connection_limit : N;
  a_backlog_limit : N;
  a_memory_limit : N;          (* bytes *)
  a_item_size_limit : N;       (* bytes; Byte::as_u64 *)
  a_threads : N;
  a_runtime_type : runtime_type;
  a_eviction_policy : eviction_policy
}.

Record effective := mkEffective {
  e_item_limit : N;            (* MemcacheServerConfig::item_memory_limit: as_u64() as u32 *)
  e_connection_limit : N;      (* permits of the one semaphore all listeners share *)
  e_memory_limit : option N;   (* Some: RandomPolicy with this limit *)
  e_listeners : N;             (* accept loops on the port *)
  e_timeout_secs : N
}.

Definition effective_of (a : args) : effective :=
  mkEffective
    (a_item_size_limit a mod two32)
    (a_connection_limit a)
    (match a_eviction_policy a with PolicyRandom => Some (a_memory_limit a) | PolicyNone => None end)
    (match a_runtime_type a with CurrentThread => a_threads a | MultiThread => 1 end)
    60.

(* the store, the connections' codec limit and the slot bookkeeping the server starts with *)
Definition world_of (a : args) : world :=
  init_world (e_item_limit (effective_of a)) (e_memory_limit (effective_of a)).
Definition slots_of (a : args) : server := new_server (e_connection_limit (effective_of a)).
