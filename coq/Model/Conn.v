(* Conn.v — protocol/binary_connection.rs (read_frame, skip_bytes) and
   memcache_server/client_handler.rs (Client::handle / handle_request):
   one connection as a machine consuming the chunks its reads return. *)
From MC Require Import Model.Base Model.Generated Model.Store Model.Memc Model.Codec Model.Handler.

Inductive closewhy := WQuit | WQuitQ | WError (e : ekind) | WPanic | WEof | WReset | WTimeout.
Inductive cstatus := COpen | CClosed (w : closewhy).

Record conn := mkConn {
  cn_codec : codec;
  cn_buf : bytes;                 (* MemcacheBinaryConnection::buffer *)
  cn_skip : N;                    (* bytes of an oversized body still to read and discard *)
  cn_pending : option request;    (* the ItemTooLarge frame read_frame returns once they are gone *)
  cn_status : cstatus
}.

Definition new_conn (limit : N) : conn := mkConn (new_codec limit) [] 0 None COpen.

Definition close (cn : conn) (w : closewhy) : conn :=
  mkConn (cn_codec cn) (cn_buf cn) (cn_skip cn) (cn_pending cn) (CClosed w).

Definition is_open (cn : conn) : bool :=
  match cn_status cn with COpen => true | CClosed _ => false end.

(* Client::handle_request: execute one frame; responses are appended to [out] *)
Definition serve (req : request) (cn : conn) (s : store) (out : list bytes)
  : conn * store * list bytes :=
  match req with
  | ReqQuitQ _ => (close cn WQuitQ, s, out)
  | _ =>
      let (s1, resp) := handle_request req s in
      match resp with
      | Some r =>
          let out1 := out ++ [encode r] in
          match r with
          | RespQuit _ => (close cn WQuit, s1, out1)
          | _ => (cn, s1, out1)
          end
      | None => (cn, s1, out)
      end
  end.

Fixpoint drop (n : nat) (l : bytes) : bytes :=
  match n, l with
  | O, _ => l
  | S n', [] => []
  | S n', _ :: t => drop n' t
  end.

(* read_frame's decode loop over what is buffered; stops at need-more, at a
   close, or when an oversized body has still to arrive. fuel bounds the number
   of frames (each consumes a 24-byte header). *)
Fixpoint pump (fuel : nat) (cn : conn) (s : store) (out : list bytes)
  : conn * store * list bytes :=
  match fuel with
  | O => (cn, s, out)
  | S f =>
      match decode (cn_codec cn) (cn_buf cn) with
      | (c1, buf1, DNeedMore) => (mkConn c1 buf1 0 None COpen, s, out)
      | (c1, buf1, DError e) => (mkConn c1 buf1 0 None (CClosed (WError e)), s, out)
      | (c1, buf1, DPanic) => (mkConn c1 buf1 0 None (CClosed WPanic), s, out)
      | (c1, buf1, DFrame (ReqTooLarge h)) =>
          let buffered := N.min (h_bodylen h) (blen buf1) in
          let buf2 := drop (N.to_nat buffered) buf1 in
          let skip := h_bodylen h - buffered in
          if skip =? 0 then
            match serve (ReqTooLarge h) (mkConn c1 buf2 0 None COpen) s out with
            | (cn2, s2, out2) => if is_open cn2 then pump f cn2 s2 out2 else (cn2, s2, out2)
            end
          else (mkConn c1 buf2 skip (Some (ReqTooLarge h)) COpen, s, out)
      | (c1, buf1, DFrame req) =>
          match serve req (mkConn c1 buf1 0 None COpen) s out with
          | (cn2, s2, out2) => if is_open cn2 then pump f cn2 s2 out2 else (cn2, s2, out2)
          end
      end
  end.

Definition pump_fuel (cn : conn) : nat := length (cn_buf cn) + 2.

(* one successful read returning [chunk] (non-empty) *)
Definition feed (chunk : bytes) (cn : conn) (s : store) : conn * store * list bytes :=
  if negb (is_open cn) then (cn, s, []) else
  if 0 <? cn_skip cn then
    let d := N.min (cn_skip cn) (blen chunk) in
    let rest := drop (N.to_nat d) chunk in
    let skip' := cn_skip cn - d in
    if skip' =? 0 then
      match cn_pending cn with
      | Some req =>
          match serve req (mkConn (cn_codec cn) (cn_buf cn ++ rest) 0 None COpen) s [] with
          | (cn2, s2, out2) =>
              if is_open cn2 then pump (pump_fuel cn2) cn2 s2 out2 else (cn2, s2, out2)
          end
      | None => (close cn WPanic, s, [])
      end
    else (mkConn (cn_codec cn) (cn_buf cn) skip' (cn_pending cn) COpen, s, [])
  else
    let cn1 := mkConn (cn_codec cn) (cn_buf cn ++ chunk) 0 None COpen in
    pump (pump_fuel cn1) cn1 s [].

(* a read returning 0: the peer closed its sending side *)
Definition eof (cn : conn) (s : store) : conn * store * list bytes :=
  if negb (is_open cn) then (cn, s, []) else
  if 0 <? cn_skip cn then
    match cn_pending cn with
    | Some req =>
        match serve req (mkConn (cn_codec cn) (cn_buf cn) 0 None COpen) s [] with
        | (cn2, s2, out2) =>
            if is_open cn2
            then (close cn2 (match cn_buf cn2 with [] => WEof | _ => WReset end), s2, out2)
            else (cn2, s2, out2)
        end
    | None => (close cn WPanic, s, [])
    end
  else (close cn (match cn_buf cn with [] => WEof | _ => WReset end), s, []).
