(* PolOld.v — RandomPolicy::set as it was before fix 'account exactly for what a
   store replaces' (see DESIGN §6): the size of the record about to be replaced was
   looked up in a separate map call before the store, and the usage corrected by
   that size afterwards. Kept only for the refutation witness in Props/C14.v. *)
From Coq Require Import ZArith.
From MC Require Import Model.Base Model.Generated Model.Store Model.PolConc.

Section PolOld.
Variable now : N.
Variable limit : Z.

Definition pset_old_prog (k : bytes) (r : record) : gprog paction presult pores :=
  evict_prog limit EVICT_FUEL (fun ok =>
    if ok then
      GAct (PGet k) (fun x =>
        let replaced := match x with QRec (Some o) => rec_len o | _ => 0 end in
        inner_set_prog now k r (fun res _ =>
          match res with
          | ROk c =>
              GAct (PUsageAdd (rec_len r)) (fun _ =>
                GAct (PUsageSub replaced) (fun _ => GRet (PSetR (ROk c))))
          | RErr e => GRet (PSetR (RErr e))
          end))
    else GRet PFuel).

Definition pprog_of_old (o : pop) : gprog paction presult pores :=
  match o with
  | PoSet k r => pset_old_prog k r
  | _ => pprog_of now limit o
  end.

Definition prun_sched_old := grun_sched (pact now) pprog_of_old.

End PolOld.
