(* Quiet.v — the quiet/loud twin of a request, and requests whose variant agrees
   with their opcode (what the decoder produces: Proofs/CodecLemmas.decode_wf) *)
From MC Require Import Model.Base Model.Generated Model.Store Model.Codec Model.Handler.

Definition with_opcode (h : header) (o : N) : header :=
  mkHdr (h_magic h) o (h_keylen h) (h_extlen h) (h_dtype h) (h_vbucket h) (h_bodylen h) (h_opaque h) (h_cas h).

Definition opcode_of_getv (v : getv) : N :=
  match v with VGet => cmd_Get | VGetQ => cmd_GetQuiet | VGetK => cmd_GetKey | VGetKQ => cmd_GetKeyQuiet end.
Definition opcode_of_setv (v : setv) : N :=
  match v with VSet => cmd_Set | VSetQ => cmd_SetQuiet | VAdd => cmd_Add | VAddQ => cmd_AddQuiet
             | VReplace => cmd_Replace | VReplaceQ => cmd_ReplaceQuiet end.
Definition opcode_of_appv (v : appv) : N :=
  match v with VAppend => cmd_Append | VAppendQ => cmd_AppendQuiet | VPrepend => cmd_Prepend | VPrependQ => cmd_PrependQuiet end.
Definition opcode_of_incv (v : incv) : N :=
  match v with VIncr => cmd_Increment | VIncrQ => cmd_IncrementQuiet | VDecr => cmd_Decrement | VDecrQ => cmd_DecrementQuiet end.

Definition twin_getv v := match v with VGet => VGetQ | VGetQ => VGet | VGetK => VGetKQ | VGetKQ => VGetK end.
Definition twin_setv v := match v with VSet => VSetQ | VSetQ => VSet | VAdd => VAddQ | VAddQ => VAdd
                                     | VReplace => VReplaceQ | VReplaceQ => VReplace end.
Definition twin_appv v := match v with VAppend => VAppendQ | VAppendQ => VAppend
                                     | VPrepend => VPrependQ | VPrependQ => VPrepend end.
Definition twin_incv v := match v with VIncr => VIncrQ | VIncrQ => VIncr | VDecr => VDecrQ | VDecrQ => VDecr end.

(* the variant of a request agrees with the opcode in its header *)
Definition wf_req (req : request) : Prop :=
  match req with
  | ReqGet v h _ => h_opcode h = opcode_of_getv v
  | ReqSet v h _ _ _ _ => h_opcode h = opcode_of_setv v
  | ReqAppend v h _ _ => h_opcode h = opcode_of_appv v
  | ReqDelete q h _ => h_opcode h = if q then cmd_DeleteQuiet else cmd_Delete
  | ReqIncr v h _ _ _ _ => h_opcode h = opcode_of_incv v
  | ReqFlush q h _ => h_opcode h = if q then cmd_FlushQuiet else cmd_Flush
  | ReqNoop h => h_opcode h = cmd_Noop
  | ReqQuit h => h_opcode h = cmd_Quit
  | ReqQuitQ h => h_opcode h = cmd_QuitQuiet
  | ReqVersion h => h_opcode h = cmd_Version \/ h_opcode h = cmd_Stat
  | ReqTooLarge _ | ReqNotSupported _ => True
  end.

(* the same request with the loud opcode replaced by the quiet one, or back *)
Definition twin (req : request) : request :=
  match req with
  | ReqGet v h k => ReqGet (twin_getv v) (with_opcode h (opcode_of_getv (twin_getv v))) k
  | ReqSet v h f e k val => ReqSet (twin_setv v) (with_opcode h (opcode_of_setv (twin_setv v))) f e k val
  | ReqAppend v h k val => ReqAppend (twin_appv v) (with_opcode h (opcode_of_appv (twin_appv v))) k val
  | ReqDelete q h k => ReqDelete (negb q) (with_opcode h (if negb q then cmd_DeleteQuiet else cmd_Delete)) k
  | ReqIncr v h d i e k => ReqIncr (twin_incv v) (with_opcode h (opcode_of_incv (twin_incv v))) d i e k
  | ReqFlush q h e => ReqFlush (negb q) (with_opcode h (if negb q then cmd_FlushQuiet else cmd_Flush)) e
  | other => other
  end.

Definition has_twin (req : request) : bool :=
  match req with
  | ReqGet _ _ _ | ReqSet _ _ _ _ _ _ | ReqAppend _ _ _ _ | ReqDelete _ _ _ | ReqIncr _ _ _ _ _ _
  | ReqFlush _ _ _ => true
  | _ => false
  end.

(* the response with its opcode replaced *)
Definition retag_h (o : N) (h : rheader) : rheader :=
  mkRHdr (rh_magic h) o (rh_keylen h) (rh_extlen h) (rh_dtype h) (rh_status h) (rh_bodylen h)
         (rh_opaque h) (rh_cas h).
Definition retag (o : N) (r : response) : response :=
  match r with
  | RespError h m => RespError (retag_h o h) m
  | RespGet h f k v => RespGet (retag_h o h) f k v
  | RespPlain h => RespPlain (retag_h o h)
  | RespQuit h => RespQuit (retag_h o h)
  | RespVersion h v => RespVersion (retag_h o h) v
  | RespCounter h v => RespCounter (retag_h o h) v
  end.

(* switch the positions of a request list selected by a mask *)
Fixpoint toggle_some (mask : list bool) (reqs : list request) : list request :=
  match mask, reqs with
  | true :: m, r :: t => (if has_twin r then twin r else r) :: toggle_some m t
  | false :: m, r :: t => r :: toggle_some m t
  | _, _ => reqs
  end.
