(* Exec.v — command histories over the store: requests as the decoder delivers
   them, and clock ticks. *)
From MC Require Import Model.Base Model.Generated Model.Store Model.Codec Model.Handler.

Inductive cmd := CReq (r : request) | CTick (d : N).

Definition exec (s : store) (c : cmd) : store :=
  match c with
  | CReq r => fst (handle_request r s)
  | CTick d => with_now s (s_now s + d)
  end.

Definition run (s : store) (cs : list cmd) : store := fold_left exec cs s.

Definition reply (s : store) (r : request) : option response := snd (handle_request r s).
