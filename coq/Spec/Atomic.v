(* Atomic.v — the one-at-a-time specification of get / set / CAS-set / delete on
   the store, with two internal events: the collection of an expired record and
   the reservation of a CAS value for an unconditional store. A concurrent
   execution is linearizable when some sequence of these events reproduces its
   final state and gives every operation the result it returned. *)
From MC Require Import Model.Base Model.Generated Model.Store Model.Memc Model.Conc.

Section Atomic.
Variable now : N.

Inductive sevent :=
| SLin (t : nat) (o : op) (res : opres) (c : N)  (* thread t's operation takes effect, answering res;
                                                   c: the CAS reserved for an unconditional store *)
| SCollect (k : bytes)                           (* an expired record of k is dropped *)
| SReserve.                                      (* a CAS value is drawn from the counter *)

(* the answer of an operation executed atomically in state s *)
Definition spec_result (o : op) (c : N) (s : shared) : opres :=
  match o with
  | OpGet k =>
      match lookup k (sh_mem s) with
      | Some r => if expired now r then OGetR (RErr NotFound) else OGetR (ROk r)
      | None => OGetR (RErr NotFound)
      end
  | OpSet k r =>
      if 0 <? r_cas r then
        match snd (act now (AEntry k r) s) with XSet res => OSetR res | _ => OSetR (RErr KeyExists) end
      else OSetR (ROk c)
  | OpDel k cc =>
      match snd (act now (ARemIf k cc) s) with XDel res => ODelR res | _ => ODelR (RErr NotFound) end
  end.

(* its effect *)
Definition spec_effect (o : op) (c : N) (s : shared) : shared :=
  match o with
  | OpGet _ => s
  | OpSet k r =>
      if 0 <? r_cas r then fst (act now (AEntry k r) s)
      else mkShared (insert k (mkRec now c (r_flags r) (r_ttl r) (r_val r)) (sh_mem s)) (sh_cas s)
  | OpDel k cc => fst (act now (ARemIf k cc) s)
  end.

Definition apply_event (e : sevent) (s : shared) : shared :=
  match e with
  | SLin _ o _ c => spec_effect o c s
  | SCollect k => fst (act now (ARemExp k) s)
  | SReserve => fst (act now AFetchCas s)
  end.

(* a trace is valid from s when every operation's recorded answer is the one the
   specification gives in the state where it takes effect; [replay] is the state
   the trace leads to *)
Fixpoint valid (evs : list sevent) (s : shared) : Prop :=
  match evs with
  | [] => True
  | e :: rest =>
      (match e with SLin _ o res c => res = spec_result o c s | _ => True end) /\
      valid rest (apply_event e s)
  end.

Definition replay (evs : list sevent) (s : shared) : shared := fold_left (fun s e => apply_event e s) evs s.

(* the answers given to thread t, in order *)
Fixpoint lins (t : nat) (evs : list sevent) : list opres :=
  match evs with
  | [] => []
  | SLin t' _ res _ :: rest => if Nat.eqb t t' then res :: lins t rest else lins t rest
  | _ :: rest => lins t rest
  end.

End Atomic.
