(* AtomicM.v — the one-at-a-time specification of the memcache commands,
   including the read-modify-write ones (add / replace / append / prepend / incr /
   decr): a command looks at what a retrieval of its key would answer (an expired
   record counts as absent), decides — answer at once, or store a record — and, if
   it stores, does so in the same instant. Internal events as in Spec/Atomic.v:
   the collection of an expired record, the reservation of a CAS value. *)
From MC Require Import Model.Base Model.Generated Model.Store Model.Memc Model.Conc Spec.Atomic.

Section AtomicM.
Variable now : N.

(* what a retrieval of k answers in s *)
Definition view (s : shared) (k : bytes) : opres :=
  match lookup k (sh_mem s) with
  | Some r => if expired now r then OGetR (RErr NotFound) else OGetR (ROk r)
  | None => OGetR (RErr NotFound)
  end.

Definition rmw_key (m : mop) : option bytes :=
  match m with
  | MBase _ => None
  | MAdd k _ | MReplace k _ | MAppend k _ _ | MPrepend k _ _ => Some k
  | MDelta _ k _ _ _ _ => Some k
  end.

Inductive decision :=
| DRet (v : opres)
| DStore (k : bytes) (r : record).

(* what the command makes of the retrieval's answer (memcache/store.rs) *)
Definition decide (m : mop) (g : opres) : decision :=
  match m with
  | MBase _ => DRet g
  | MAdd k r =>
      match g with OGetR (ROk _) => DRet (OSetR (RErr KeyExists)) | _ => DStore k r end
  | MReplace k r =>
      match g with OGetR (ROk _) => DStore k r | _ => DRet (OSetR (RErr NotFound)) end
  | MAppend k cas v =>
      match g with
      | OGetR (ROk old) => DStore k (mkRec (r_ts old) cas (r_flags old) (r_ttl old) (r_val old ++ v))
      | _ => DRet (OSetR (RErr NotFound))
      end
  | MPrepend k cas v =>
      match g with
      | OGetR (ROk old) => DStore k (mkRec (r_ts old) cas (r_flags old) (r_ttl old) (v ++ r_val old))
      | _ => DRet (OSetR (RErr NotFound))
      end
  | MDelta incr k hcas hexp delta initial =>
      match g with
      | OGetR (ROk old) =>
          match parse_u64 (r_val old) with
          | None => DRet (OSetR (RErr ArithOnNonNumeric))
          | Some v =>
              let v' := if incr then wrapping_add64 v delta else if v <? delta then 0 else v - delta in
              DStore k (mkRec 0 hcas (r_flags old) hexp (to_dec v'))
          end
      | _ =>
          if hexp =? u32_max then DRet (OSetR (RErr NotFound))
          else DStore k (mkRec 0 0 0 hexp (to_dec initial))
      end
  end.

(* the answer of a command executed atomically in state s (c: the CAS reserved
   for an unconditional store) and its effect *)
Definition mspec_result (m : mop) (c : N) (s : shared) : opres :=
  match m with
  | MBase o => spec_result now o c s
  | _ =>
      match rmw_key m with
      | Some k =>
          match decide m (view s k) with
          | DRet v => v
          | DStore k' r => spec_result now (OpSet k' r) c s
          end
      | None => OGetR (RErr NotFound)
      end
  end.

Definition mspec_effect (m : mop) (c : N) (s : shared) : shared :=
  match m with
  | MBase o => spec_effect now o c s
  | _ =>
      match rmw_key m with
      | Some k =>
          match decide m (view s k) with
          | DRet _ => s
          | DStore k' r => spec_effect now (OpSet k' r) c s
          end
      | None => s
      end
  end.

Inductive mevent :=
| MLin (t : nat) (m : mop) (res : opres) (c : N)
| MCollect (k : bytes)
| MReserve.

Definition apply_mevent (e : mevent) (s : shared) : shared :=
  match e with
  | MLin _ m _ c => mspec_effect m c s
  | MCollect k => fst (act now (ARemExp k) s)
  | MReserve => fst (act now AFetchCas s)
  end.

Fixpoint mvalid (evs : list mevent) (s : shared) : Prop :=
  match evs with
  | [] => True
  | e :: rest =>
      (match e with MLin _ m res c => res = mspec_result m c s | _ => True end) /\
      mvalid rest (apply_mevent e s)
  end.

Definition mreplay (evs : list mevent) (s : shared) : shared :=
  fold_left (fun s e => apply_mevent e s) evs s.

Fixpoint mlins (t : nat) (evs : list mevent) : list opres :=
  match evs with
  | [] => []
  | MLin t' _ res _ :: rest => if Nat.eqb t t' then res :: mlins t rest else mlins t rest
  | _ :: rest => mlins t rest
  end.

(* ---- non-interference of a schedule ------------------------------------- *)
(* the key a client has read for a read-modify-write it has not finished: its
   program stands between the retrieval and the store *)
Definition window_key (cur : option (mop * prog)) : option bytes :=
  match cur with
  | Some (m, Act (ARemExp _) _) | Some (m, Act AFetchCas _)
  | Some (m, Act (AEntry _ _) _) | Some (m, Act (AInsert _ _) _) => rmw_key m
  | _ => None
  end.

(* the key the next map call of a client may change what a retrieval answers for *)
Definition mutated_key (cur : option (mop * prog)) : option bytes :=
  match cur with
  | Some (_, Act (AInsert k _) _) | Some (_, Act (AEntry k _) _) | Some (_, Act (ARemIf k _) _) => Some k
  | _ => None
  end.

Fixpoint others_clear (k : bytes) (i : nat) (j : nat) (ts : list (@thread mop)) : bool :=
  match ts with
  | [] => true
  | t :: rest =>
      (if Nat.eqb i j then true
       else match window_key (th_cur t) with Some k' => negb (bytes_eqb k k') | None => true end)
      && others_clear k i (S j) rest
  end.

(* thread i may take its next step: it does not change what a retrieval answers
   for a key another client is in the middle of a read-modify-write on *)
Definition ni_step (i : nat) (t : @thread mop) (ts : list (@thread mop)) : bool :=
  match mutated_key (th_cur t) with
  | Some k => others_clear k i 0 ts
  | None => true
  end.

Fixpoint ni_sched (sched : list nat) (ts : list (@thread mop)) (s : shared) : bool :=
  match sched with
  | [] => true
  | i :: rest =>
      match nth_thread i ts with
      | None => ni_sched rest ts s
      | Some t =>
          ni_step i t ts &&
          (let (t', s') := thread_step now (mprog_of now) t s in
           ni_sched rest (set_thread i t' ts) s')
      end
  end.

End AtomicM.
