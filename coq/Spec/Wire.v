(* Wire.v — an independent, client-side reading of a response frame *)
From MC Require Import Model.Base Model.Generated.

Record rframe := mkFrame {
  f_magic : N; f_opcode : N; f_keylen : N; f_extlen : N; f_dtype : N; f_status : N;
  f_bodylen : N; f_opaque : N; f_cas : N; f_body : bytes
}.

(* take one response off the front of a byte stream: 24 header bytes, then
   exactly body-length bytes *)
Definition parse_response (b : bytes) : option (rframe * bytes) :=
  match take 24 b with
  | Some ([b0;b1;b2;b3;b4;b5;b6;b7;b8;b9;b10;b11;b12;b13;b14;b15;b16;b17;b18;b19;b20;b21;b22;b23], rest) =>
      let bl := be_dec [b8;b9;b10;b11] in
      match take (N.to_nat bl) rest with
      | Some (body, rest') =>
          Some (mkFrame (b2n b0) (b2n b1) (be_dec [b2;b3]) (b2n b4) (b2n b5) (be_dec [b6;b7]) bl
                        (be_dec [b12;b13;b14;b15]) (be_dec [b16;b17;b18;b19;b20;b21;b22;b23]) body, rest')
      | None => None
      end
  | _ => None
  end.
